/-
C13 — Alternative input formats of the same content give identical results.
Post-tokenisation models: HermesModel/CropParam.lean (classic reader, YAML reader, converter),
HermesModel/Measure.lean, HermesModel/InputFormats.lean (soil, rotation, weather), date formats via
the C12 theorems.  Tokenisation itself (fixed columns, strings.Fields, YAML) is tied to the code by
the correspondence check only.
The crop-parameter theorems hold for every arithmetic `α` (in particular IEEE double): they state
which expression each reader stores into which field.
-/
import HermesProofs.CropParam
import HermesProofs.InputFormats
import HermesModel.CropWitness
import HermesProps.C12
set_option linter.unusedSectionVars false

namespace Hermes.CropParam
section
variable {α : Type} [Add α] [Div α] [LT α] [LE α] [DecidableLT α] [DecidableLE α]
  [OfNat α 0] [OfNat α 100] [OfNat α 200] [TruncInt α]

/-- within the shape limits neither reader ends the process, and the converter's output passes
the shape tests of the YAML reader -/
theorem C13_cropparam_readers_accept (t : Classic α) (rep : Bool) (s : State α) (h : t.WF) :
    applyClassic t rep s = some (applyClassicCore t rep s) ∧
    applyYml (convert t) rep s = some (applyYmlCore (convert t) rep s) := by
  obtain ⟨h1, h2, h3, h4, h5, h6, h7, h8, _⟩ := h
  constructor
  · unfold applyClassic
    rw [if_neg]
    intro hc
    rcases hc with hc | hc | hc | ⟨hc, hc'⟩
    · omega
    · omega
    · omega
    · have := h7 hc; omega
  · unfold applyYml
    have : ymlShapeOk (convert t) = true := by
      have hs : ∀ st ∈ List.take t.nrentw (List.map (convertStage t.nrkom) (List.take t.nrentw t.stages)),
          t.nrkom ≤ st.pro.length ∧ t.nrkom ≤ st.dead.length := by
        intro st hst
        obtain ⟨x, hx, rfl⟩ := List.mem_map.mp (List.mem_of_mem_take hst)
        have hx' := h8 x (List.mem_of_mem_take hx)
        simp only [convertStage, List.length_take]
        omega
      have ho : ∀ o ∈ t.above, 1 ≤ o ∧ o ≤ (t.nrkom : Int) := h6
      have hl : t.nrentw ≤ (List.map (convertStage t.nrkom) (List.take t.nrentw t.stages)).length := by
        simp only [List.length_map, List.length_take]; omega
      unfold ymlShapeOk
      simp only [Bool.and_eq_true, decide_eq_true_iff, List.all_eq_true]
      refine ⟨⟨⟨⟨⟨⟨h1, ?_⟩, h2⟩, ?_⟩, ?_⟩, hl⟩, hs⟩
      · intro o hm; exact ho o hm
      · simp only [convert, List.length_take]; omega
      · simp only [convert, List.length_take]; omega
    rw [if_pos this]

/-- **Classic file ≡ YAML written by the converter.** For every token record within the shape
limits (≤ 5 organs, ≤ 10 stages, BBCH codes 0…99), every prior model state and both values of the
permanent-crop condition, the YAML reader applied to the converter's output stores exactly the
state the classic reader stores — derived quantities (VELOC/200, concentrations/100, total
temperature sum, BBCH flag), the resets and the optional parameters of N-content function 5
(absent token = 0 in both) included. -/
theorem C13_cropparam_yml_eq_classic (t : Classic α) (rep : Bool) (s : State α) (h : t.WF) :
    applyYml (convert t) rep s = applyClassic t rep s := by
  obtain ⟨e1, e2⟩ := C13_cropparam_readers_accept t rep s h
  rw [e1, e2, yml_convert_eq_classic_core t rep s h.bbch_ok]

end

/-- a crop file without the optional `org=` token read after a crop with `org=S4`: both encodings
store organ 0 (regression witness of the repaired classic reader) -/
theorem C13_cropparam_missing_org_token_resets :
    (applyClassic witnessNoOrg false afterBeet).map (·.subOrgan) = some 0 ∧
    (applyYml (convert witnessNoOrg) false afterBeet).map (·.subOrgan) = some 0 := by
  decide

/-! non-vacuity: the witness record is within the shape limits, so the theorems above apply to it -/
example : witnessNoOrg.WF :=
  { nrkom_le := by decide, nrentw_le := by decide, stages_len := rfl, worg_len := rfl, mairt_len := rfl,
    above_ok := by decide, org_le := by decide,
    slots := by intro st h; simp [witnessNoOrg] at h; subst h; exact ⟨rfl, rfl⟩,
    bbch_ok := by intro st h v hv; simp [witnessNoOrg] at h; subst h; simp [witnessStage] at hv }
example : (applyClassic witnessNoOrg false zeroState).map (·.veloc) = some 1 := by decide
example : (applyYml (convert witnessNoOrg) false zeroState).map (·.tendsum) = some 148 := by decide

end Hermes.CropParam

namespace Hermes.Measure
section
variable {α : Type} [Add α] [Sub α] [Mul α] [Div α] [OfNat α 0] [OfNat α 3] [OfNat α 5]
  [OfNat α 100] [OfNat α 300] [OfScientific α]

/-- **Measurement file, CSV ≡ text.** For every number of layers, every reading of column M and
every content — all fifteen columns, or only the nine mandatory ones — the CSV reader initialises
water and mineral N of every layer and the water sum exactly as the text reader does for the same
tokens. -/
theorem C13_measure_csv_eq_txt (c : Csv α) (w wmin : List α) :
    readCsv c w wmin = readTxt c.toTxt w wmin := read_csv_eq_txt c w wmin

/-- the layer → depth class assignment of the two duplicated routines is the same function, total
on the 20 layers -/
theorem C13_measure_layer_classes_agree :
    (∀ zi, wClassCsv zi = wClassTxt zi) ∧ (∀ i, nClassCsv i = nClassTxt i) ∧
    (∀ zi, 1 ≤ zi → zi ≤ 20 → ∃ c, wClassTxt zi = some c ∧ c ≤ 5) :=
  ⟨wClass_csv_eq_txt, nClass_csv_eq_txt, wClass_total⟩

end

example : wClassTxt 3 = some 0 ∧ wClassTxt 4 = some 1 ∧ wClassTxt 16 = some 5 ∧ nClassTxt 16 = (5, 5) := by decide

end Hermes.Measure

namespace Hermes.InputFormats

/-- **Soil, CSV ≡ fixed-width text**: without the CSV-only measured bulk density column every
horizon gets the same stored values (stones/100, C/N default 10, N and humus content, density of
the class, optional capacities and texture). -/
theorem C13_soil_csv_eq_txt {α : Type} [Mul α] [Div α] [BEq α] [OfNat α 0] [OfNat α 10] [OfNat α 100]
    [OfScientific α] (hs : List (HorizonTok α)) (hb : ∀ h ∈ hs, h.bulk = none) :
    hs.map horizonCsv = hs.map horizonTxt :=
  List.map_congr_left fun h hm => horizon_csv_eq_txt h (hb h hm)

/-- **Rotation, CSV ≡ text**: with either header in use every line of tokens assigns the same
fields (crop, sowing, harvest, exported residues, yield, organic-fertiliser flag, variety). -/
theorem C13_rotation_csv_eq_txt (lines : List (List String)) :
    lines.map (rotCsv shippedHeader) = lines.map rotTxt ∧
    lines.map (rotCsv recognisedHeader) = lines.map rotTxt :=
  ⟨List.map_congr_left fun l _ => (rot_csv_eq_txt l).1, List.map_congr_left fun l _ => (rot_csv_eq_txt l).2⟩

/-- **Weather layouts**: the three readers store the same values (precipitation in cm × correction,
PAR, wind floored at 0.5 m/s on every day) for a day whose mean temperature equals the min/max mean
the day-of-year layout derives. -/
theorem C13_weather_layouts_agree {α : Type} [Add α] [Mul α] [Div α] [LT α] [DecidableLT α]
    [OfNat α 2] [OfNat α 10] [OfScientific α]
    (cor : α) (days : List (WDay α)) (h : ∀ d ∈ days, d.tavg = (d.tmax + d.tmin) / 2) :
    days.map (dayYearFile cor) = days.map (dayCsv cor) ∧ days.map (dayCsv cor) = days.map (dayCz cor) :=
  ⟨List.map_congr_left fun d hd => (weather_layouts cor d (h d hd)).1,
   List.map_congr_left fun d hd => (weather_layouts cor d (h d hd)).2⟩

example : rotTxt ["F1", "WW", "01101979", "04081980", "080", "050", "0"] =
    { field := "F1", crop := "WW", sow := "01101979", harvest := "04081980", rex := "080", yld := "050",
      autorg := some "0", variety := none } := by decide

end Hermes.InputFormats

namespace Hermes.Calendar

/-- **Date formats**: a valid date written in any two of the four formats (with the century split
admissible for the short ones) is read as the same day of year and the same day number. -/
theorem C13_date_formats_agree (f1 f2 : DateFormat) (cent yr mon tg : Nat) (h : ValidDate yr mon tg)
    (hc : SplitOk cent yr) :
    ∃ t1 t2, render f1 [] (masdat yr mon tg) = some t1 ∧ render f2 [] (masdat yr mon tg) = some t2 ∧
      parse f1 cent t1 = parse f2 cent t2 := by
  obtain ⟨t1, r1, p1⟩ := C12_parse_render f1 [] (by simp) cent yr mon tg h (fun _ => hc)
  obtain ⟨t2, r2, p2⟩ := C12_parse_render f2 [] (by simp) cent yr mon tg h (fun _ => hc)
  exact ⟨t1, t2, r1, r2, by rw [p1, p2]⟩

end Hermes.Calendar
